import Pytreesmodel.TickInv
set_option linter.unusedVariables false
set_option linter.unusedSimpArgs false
open Node
namespace Node

theorem stopInvNonInvalid_spec (cs : List Node) (h : wfL cs = true) :
    wfL (stopInvNonInvalid cs).1 = true ∧ noRunL (stopInvNonInvalid cs).1 = true ∧
    (stopInvNonInvalid cs).1.map Node.id = cs.map Node.id :=
  ⟨stopInvNonInvalid_wfL cs h, stopInvNonInvalid_noRunL cs h, stopInvNonInvalid_ids cs⟩

theorem onlyCur_noRun_of_ne {cur : Option Nat} {cs : List Node} (h : onlyCur cur cs = true)
    (hne : ∀ c ∈ cs, cur ≠ some c.id) : noRunL cs = true := by
  rw [noRunL_iff]; rw [onlyCur_iff] at h
  intro c hc; rcases h c hc with h | h
  · exact h
  · exact absurd h (hne c hc)

theorem seqEntry_spec (st : Status) (m : Bool) (cur : Option Nat) (cs before rest : List Node) (trR : List Ev)
    (hwl : wfL cs = true) (hrun : st = .running ∨ noRunL cs = true) (hoc : onlyCur cur cs = true)
    (hnd : (cs.map Node.id).Nodup) (h : seqEntry st m cur cs = .ok (before, rest, trR)) :
    wfL before = true ∧ noRunL before = true ∧ wfL rest = true ∧
    (before ++ rest).map Node.id = cs.map Node.id ∧ (m = true → noRunL rest.tail = true) := by
  unfold seqEntry at h
  split at h
  · -- fresh entry
    simp only [pure, Except.pure, Except.ok.injEq, Prod.mk.injEq] at h
    obtain ⟨rfl, rfl, rfl⟩ := h
    have := stopInvNonInvalid_noRunL cs hwl
    refine ⟨by simp [wfL], by simp [noRunL], stopInvNonInvalid_wfL cs hwl, by simp [stopInvNonInvalid_ids], ?_⟩
    intro _; rw [noRunL_iff] at this ⊢; intro c hc; exact this c (List.mem_of_mem_tail hc)
  · split at h
    · -- memory, RUNNING: resume at the current child
      split at h
      · rename_i a b hsp
        simp only [pure, Except.pure, Except.ok.injEq, Prod.mk.injEq] at h
        obtain ⟨rfl, rfl, rfl⟩ := h
        cases cur with
        | none => simp at hsp
        | some cid =>
          simp only [Option.bind_some] at hsp
          obtain ⟨e1, e2, c, rest', e3, e4⟩ := splitAtId_spec cid cs _ _ hsp
          subst e3; subst e1
          rw [wfL_append] at hwl; rw [onlyCur_append] at hoc
          simp only [List.map_append, List.map_cons] at hnd
          refine ⟨hwl.1, ?_, hwl.2, rfl, ?_⟩
          · exact onlyCur_noRun_of_ne hoc.1 (fun x hx => by simpa using (e2 x hx).symm)
          · intro _
            simp only [List.tail_cons]
            have hoc2 := hoc.2; simp only [onlyCur, Bool.and_eq_true] at hoc2
            apply onlyCur_noRun_of_ne hoc2.2
            intro x hx
            have : x.id ≠ c.id := by
              have hn := (List.nodup_append.mp hnd).2.1
              simp only [List.nodup_cons, List.mem_map, not_exists, not_and] at hn
              exact fun e => hn.1 x hx e
            intro e; apply this; rw [← e4] at e; exact (Option.some.inj e).symm
      · simp [throw, throwThe, MonadExceptOf.throw] at h
    · simp only [pure, Except.pure, Except.ok.injEq, Prod.mk.injEq] at h
      obtain ⟨rfl, rfl, rfl⟩ := h
      rename_i hm
      exact ⟨by simp [wfL], by simp [noRunL], hwl, rfl, fun hm' => absurd hm' hm⟩

theorem seqRun_spec (t : Tick) (ht : TickOK t) (i : Nat) (m : Bool) (before rest : List Node) (trR : List Ev)
    (n' : Node) (tr : List Ev)
    (hb : wfL before = true) (hbn : noRunL before = true) (hr : wfL rest = true)
    (hm : m = true → noRunL rest.tail = true) (hnd : ((before ++ rest).map Node.id).Nodup)
    (h : seqRun t i m before rest trR = .ok (n', tr)) :
    wf n' = true ∧ n'.status ≠ .invalid ∧ n'.id = i := by
  simp only [seqRun, bind, Except.bind] at h
  cases hl : seqLoop t rest with
  | error e => simp [hl] at h
  | ok v =>
    obtain ⟨done, r, trl⟩ := v
    simp only [hl] at h
    obtain ⟨hd, hdn, hr'⟩ := seqLoop_spec t ht rest done r trl hr hl
    cases r with
    | none =>
      simp only [pure, Except.pure, Except.ok.injEq, Prod.mk.injEq] at h
      obtain ⟨rfl, _⟩ := h
      simp only at hr'
      have hn : noRunL (before ++ done) = true := noRunL_append.mpr ⟨hbn, hdn⟩
      refine ⟨?_, by simp [status], by simp [id]⟩
      simp only [wf, Bool.and_eq_true, decide_eq_true_eq, Bool.or_eq_true, beq_iff_eq]
      refine ⟨⟨⟨wfL_append.mpr ⟨hb, hd⟩, Or.inr hn⟩, onlyCur_of_noRunL hn⟩, ?_⟩
      simpa [hr'] using hnd
    | some p =>
      obtain ⟨c', untouched⟩ := p
      obtain ⟨hc1, hc2, hc3, hids, pre, hpre, hlen⟩ := hr'
      simp only [pure, Except.pure, Except.ok.injEq, Prod.mk.injEq] at h
      obtain ⟨rfl, _⟩ := h
      -- the untouched remainder lies in rest.tail
      have hwu : wfL untouched = true := by rw [hpre, wfL_append] at hr; exact hr.2
      have htail : ∃ p pre', pre = p :: pre' := by
        cases pre with
        | nil => simp at hlen
        | cons p pre' => exact ⟨p, pre', rfl⟩
      obtain ⟨p0, pre', rfl⟩ := htail
      -- the tail after the optional kill
      have hT : wfL (if m = true then (untouched, []) else stopInvNonInvalid untouched).1 = true ∧
                noRunL (if m = true then (untouched, []) else stopInvNonInvalid untouched).1 = true ∧
                (if m = true then (untouched, []) else stopInvNonInvalid untouched).1.map Node.id = untouched.map Node.id := by
        by_cases hmm : m = true
        · simp only [hmm, ↓reduceIte]
          have := hm hmm
          rw [hpre] at this; simp only [List.cons_append, List.tail_cons] at this
          exact ⟨hwu, (noRunL_append.mp this).2, trivial⟩
        · simp only [hmm, Bool.false_eq_true, ↓reduceIte]
          exact stopInvNonInvalid_spec untouched hwu
      generalize (if m = true then (untouched, []) else stopInvNonInvalid untouched).1 = tail at hT
      obtain ⟨hT1, hT2, hT3⟩ := hT
      refine ⟨?_, by simpa [status] using hc2, by simp [id]⟩
      simp only [wf, Bool.and_eq_true, decide_eq_true_eq, Bool.or_eq_true, beq_iff_eq]
      refine ⟨⟨⟨?_, ?_⟩, ?_⟩, ?_⟩
      · rw [wfL_append, wfL_append]; exact ⟨⟨hb, hd⟩, by simp [wfL, hc1, hT1]⟩
      · by_cases hrn : c'.status = .running
        · exact Or.inl hrn
        · right; rw [noRunL_append, noRunL_append]
          exact ⟨⟨hbn, hdn⟩, by simp [noRunL, wf_noRun hc1 hrn, hT2]⟩
      · rw [onlyCur_append, onlyCur_append]
        exact ⟨⟨onlyCur_of_noRunL hbn, onlyCur_of_noRunL hdn⟩, by simp [onlyCur, onlyCur_of_noRunL hT2]⟩
      · simp only [List.map_append, List.map_cons, hT3, List.append_assoc]
        rw [hids]; simpa using hnd

theorem selEntry_spec (st : Status) (m : Bool) (cur cur0 : Option Nat) (cs before rest : List Node) (trP : List Ev)
    (hwl : wfL cs = true) (hrun : st = .running ∨ noRunL cs = true) (hoc : onlyCur cur cs = true)
    (h : selEntry st m cur cs = .ok (cur0, before, rest, trP)) :
    wfL before = true ∧ noRunL before = true ∧ wfL rest = true ∧
    (before ++ rest).map Node.id = cs.map Node.id ∧ onlyCur cur0 rest = true := by
  unfold selEntry at h
  -- the remembered selection satisfies onlyCur on all of cs
  have hoc0 : onlyCur (if st ≠ .running then cs.head?.map Node.id else cur) cs = true := by
    by_cases hs : st = .running
    · simpa [hs] using hoc
    · rcases hrun with h1 | h1
      · exact absurd h1 hs
      · exact onlyCur_of_noRunL h1
  generalize (if st ≠ .running then cs.head?.map Node.id else cur) = c0 at h hoc0
  simp only at h
  split at h
  · split at h
    · rename_i a b hsp
      simp only [pure, Except.pure, Except.ok.injEq, Prod.mk.injEq] at h
      obtain ⟨rfl, rfl, rfl, rfl⟩ := h
      cases c0 with
      | none => simp at hsp
      | some cid =>
        simp only [Option.bind_some] at hsp
        obtain ⟨e1, e2, c, rest', e3, e4⟩ := splitAtId_spec cid cs _ _ hsp
        subst e1
        rw [wfL_append] at hwl; rw [onlyCur_append] at hoc0
        obtain ⟨q1, q2, q3⟩ := stopInvAll_spec a hwl.1
        exact ⟨q1, q2, hwl.2, by simp [q3], hoc0.2⟩
    · simp [throw, throwThe, MonadExceptOf.throw] at h
  · simp only [pure, Except.pure, Except.ok.injEq, Prod.mk.injEq] at h
    obtain ⟨rfl, rfl, rfl, rfl⟩ := h
    exact ⟨by simp [wfL], by simp [noRunL], hwl, rfl, hoc0⟩

theorem selRun_spec (t : Tick) (ht : TickOK t) (i : Nat) (m : Bool) (cur0 : Option Nat) (before rest : List Node)
    (trP : List Ev) (n' : Node) (tr : List Ev)
    (hb : wfL before = true) (hbn : noRunL before = true) (hr : wfL rest = true)
    (hoc : onlyCur cur0 rest = true) (hnd : ((before ++ rest).map Node.id).Nodup)
    (h : selRun t i m cur0 before rest trP = .ok (n', tr)) :
    wf n' = true ∧ n'.status ≠ .invalid ∧ n'.id = i := by
  simp only [selRun, bind, Except.bind] at h
  cases hl : selLoop t rest with
  | error e => simp [hl] at h
  | ok v =>
    obtain ⟨failed, r, trl⟩ := v
    simp only [hl] at h
    obtain ⟨hd, hdn, hr'⟩ := selLoop_spec t ht rest failed r trl hr hl
    cases r with
    | none =>
      simp only [pure, Except.pure, Except.ok.injEq, Prod.mk.injEq] at h
      obtain ⟨rfl, _⟩ := h
      simp only at hr'
      have hn : noRunL (before ++ failed) = true := noRunL_append.mpr ⟨hbn, hdn⟩
      refine ⟨?_, by simp [status], by simp [id]⟩
      simp only [wf, Bool.and_eq_true, decide_eq_true_eq, Bool.or_eq_true, beq_iff_eq]
      refine ⟨⟨⟨wfL_append.mpr ⟨hb, hd⟩, Or.inr hn⟩, onlyCur_of_noRunL hn⟩, ?_⟩
      simpa [hr'] using hnd
    | some p =>
      obtain ⟨c', untouched⟩ := p
      obtain ⟨hc1, hc2, hids, pre, hpre, hlen⟩ := hr'
      simp only [pure, Except.pure, Except.ok.injEq, Prod.mk.injEq] at h
      obtain ⟨rfl, _⟩ := h
      have hwu : wfL untouched = true := by rw [hpre, wfL_append] at hr; exact hr.2
      have hocu : onlyCur cur0 untouched = true := by rw [hpre, onlyCur_append] at hoc; exact hoc.2
      -- ids of the untouched children differ from the selected child's id
      have hne : ∀ x ∈ untouched, x.id ≠ c'.id := by
        intro x hx
        have h1 : ((before.map Node.id ++ failed.map Node.id) ++ c'.id :: untouched.map Node.id).Nodup := by
          have := hnd; simp only [List.map_append] at this; rw [← hids] at this; simpa using this
        have := (List.nodup_append.mp h1).2.1
        simp only [List.nodup_cons, List.mem_map, not_exists, not_and] at this
        exact fun e => this.1 x hx e
      have hT : wfL (if cur0 = some c'.id then (untouched, []) else stopInvNonInvalid untouched).1 = true ∧
                noRunL (if cur0 = some c'.id then (untouched, []) else stopInvNonInvalid untouched).1 = true ∧
                (if cur0 = some c'.id then (untouched, []) else stopInvNonInvalid untouched).1.map Node.id = untouched.map Node.id := by
        by_cases hsame : cur0 = some c'.id
        · simp only [hsame, ↓reduceIte]
          refine ⟨hwu, ?_, trivial⟩
          apply onlyCur_noRun_of_ne hocu
          intro x hx e; rw [hsame] at e; exact hne x hx (Option.some.inj e).symm
        · simp only [hsame, ↓reduceIte]
          exact stopInvNonInvalid_spec untouched hwu
      generalize (if cur0 = some c'.id then (untouched, []) else stopInvNonInvalid untouched).1 = tail at hT
      obtain ⟨hT1, hT2, hT3⟩ := hT
      have hni : c'.status ≠ .invalid := by rcases hc2 with h | h <;> simp [h]
      refine ⟨?_, by simpa [status] using hni, by simp [id]⟩
      simp only [wf, Bool.and_eq_true, decide_eq_true_eq, Bool.or_eq_true, beq_iff_eq]
      refine ⟨⟨⟨?_, ?_⟩, ?_⟩, ?_⟩
      · rw [wfL_append, wfL_append]; exact ⟨⟨hb, hd⟩, by simp [wfL, hc1, hT1]⟩
      · by_cases hrn : c'.status = .running
        · exact Or.inl hrn
        · right; rw [noRunL_append, noRunL_append]
          exact ⟨⟨hbn, hdn⟩, by simp [noRunL, wf_noRun hc1 hrn, hT2]⟩
      · rw [onlyCur_append, onlyCur_append]
        exact ⟨⟨onlyCur_of_noRunL hbn, onlyCur_of_noRunL hdn⟩, by simp [onlyCur, onlyCur_of_noRunL hT2]⟩
      · simp only [List.map_append, List.map_cons, hT3, List.append_assoc]
        rw [hids]; simpa using hnd

theorem parRun_spec (t : Tick) (ht : TickOK t) (i : Nat) (p : Policy) (cs0 : List Node) (trR : List Ev)
    (n' : Node) (tr : List Ev) (hw : wfL cs0 = true) (h : parRun t i p cs0 trR = .ok (n', tr)) :
    wf n' = true ∧ n'.status ≠ .invalid ∧ n'.id = i := by
  simp only [parRun, bind, Except.bind] at h
  cases hl : parLoop t p.sync cs0 with
  | error e => simp [hl] at h
  | ok v =>
    obtain ⟨cs1, trl⟩ := v
    simp only [hl] at h
    have hw1 := parLoop_spec t ht p.sync cs0 cs1 trl hw hl
    have hni := parResult_ne_invalid p cs1
    split at h
    · rename_i hns
      simp only [pure, Except.pure, Except.ok.injEq, Prod.mk.injEq] at h
      obtain ⟨rfl, _⟩ := h
      obtain ⟨q1, q2⟩ := stopRunning_wfL cs1 hw1
      exact ⟨by simp [wf, q1, q2], by simpa [status] using hni, by simp [id]⟩
    · rename_i hns
      simp only [pure, Except.pure, Except.ok.injEq, Prod.mk.injEq] at h
      obtain ⟨rfl, _⟩ := h
      have : (parResult p cs1).1 = .running := by simpa using hns
      exact ⟨by simp [wf, hw1, this], by simpa [status] using hni, by simp [id]⟩

theorem decBounce_spec (i : Nat) (k : DecKind) (s : Status) (c n' : Node) (tr : List Ev)
    (hs : s ≠ .invalid) (hw : wf c = true) (hk : decOK k = true) (h : decBounce i k s c = .ok (n', tr)) :
    wf n' = true ∧ n'.status ≠ .invalid ∧ n'.id = i := by
  simp only [decBounce, pure, Except.pure, Except.ok.injEq, Prod.mk.injEq] at h
  obtain ⟨rfl, _⟩ := h
  refine ⟨?_, by simpa [status] using hs, by simp [id]⟩
  by_cases hr : c.status = .running
  · simp [wf, hr, stopInv_wf c hw, stopInv_noRun c hw, decOK_terminate _ _ hk]
  · simp [wf, hr, hw, wf_noRun hw hr, decOK_terminate _ _ hk]

theorem decRun_spec (t : Tick) (ht : TickOK t) (e : Env) (i : Nat) (k : DecKind) (st : Status) (c n' : Node)
    (tr : List Ev) (hw : wf c = true) (hk : decOK k = true) (h : decRun t e i k st c = .ok (n', tr)) :
    wf n' = true ∧ n'.status ≠ .invalid ∧ n'.id = i := by
  simp only [decRun, bind, Except.bind] at h
  cases htc : t c with
  | error err => simp [htc] at h
  | ok v =>
    obtain ⟨c1, trc⟩ := v
    obtain ⟨hc1, hc2, _⟩ := ht c c1 trc hw htc
    simp only [htc] at h
    have hk0 : decOK (if st ≠ .running then decInit e k else k) = true := by
      split
      · exact decOK_init e k hk
      · exact hk
    generalize (if st ≠ .running then decInit e k else k) = k0 at h hk0
    have hk1 := decOK_update e k0 c1.status hk0
    have hns : (decUpdate e k0 c1.status).2.1 ≠ .invalid := by
      apply decUpdate_ne_invalid e k0 c1.status hc2
      intro b f hkk; subst hkk
      simp only [decOK, Bool.or_eq_true, beq_iff_eq] at hk0
      rcases hk0 with h | h <;> simp [h]
    -- the child after the optional cancellation by `update`
    have hc2' : wf (if (decUpdate e k0 c1.status).2.2 = true then stopInv c1 else (c1, [])).1 = true := by
      split
      · exact stopInv_wf c1 hc1
      · exact hc1
    generalize (if (decUpdate e k0 c1.status).2.2 = true then stopInv c1 else (c1, [])) = cc at h hc2'
    split at h
    · simp only [pure, Except.pure, Except.ok.injEq, Prod.mk.injEq] at h
      obtain ⟨rfl, _⟩ := h
      refine ⟨?_, by simpa [status] using hns, by simp [id]⟩
      by_cases hr : cc.1.status = .running
      · simp [wf, hr, stopInv_wf _ hc2', stopInv_noRun _ hc2', decOK_terminate _ _ hk1]
      · simp [wf, hr, hc2', wf_noRun hc2' hr, decOK_terminate _ _ hk1]
    · rename_i hrun
      simp only [pure, Except.pure, Except.ok.injEq, Prod.mk.injEq] at h
      obtain ⟨rfl, _⟩ := h
      have : (decUpdate e k0 c1.status).2.1 = .running := by simpa using hrun
      exact ⟨by simp [wf, hc2', this, hk1], by show (decUpdate e k0 c1.status).2.1 ≠ .invalid; exact hns, by simp [id]⟩

/-- main invariant theorem (prototype): one tick preserves well-formedness -/
theorem tickF_wf (e : Env) (he : ValidEnv e) : ∀ (f : Nat) (n n' : Node) (tr : List Ev),
    wf n = true → tickF f e n = .ok (n', tr) → wf n' = true ∧ n'.status ≠ .invalid ∧ n'.id = n.id := by
  intro f
  induction f with
  | zero => intro n n' tr _ h; simp [tickF] at h
  | succ f ih =>
    have ht : TickOK (tickF f e) := fun c c' tr hw h => ih c c' tr hw h
    intro n n' tr hw h
    cases n with
    | leaf i st log =>
      simp only [tickF, pure, Except.pure, Except.ok.injEq, Prod.mk.injEq] at h
      obtain ⟨rfl, _⟩ := h
      exact ⟨by simp [wf], by simpa [status] using he i, by simp [id]⟩
    | seq i m st cur cs =>
      simp only [wf, Bool.and_eq_true, decide_eq_true_eq, Bool.or_eq_true, beq_iff_eq] at hw
      obtain ⟨⟨⟨hwl, hrun⟩, hoc⟩, hnd⟩ := hw
      simp only [tickF, bind, Except.bind] at h
      cases hen : seqEntry st m cur cs with
      | error err => simp [hen] at h
      | ok v =>
        obtain ⟨before, rest, trR⟩ := v
        simp only [hen] at h
        obtain ⟨s1, s2, s3, s4, s5⟩ := seqEntry_spec st m cur cs before rest trR hwl hrun hoc hnd hen
        split at h
        · rename_i hemp
          simp only [pure, Except.pure, Except.ok.injEq, Prod.mk.injEq] at h
          obtain ⟨rfl, _⟩ := h
          have : cs = [] := by simpa using hemp
          subst this
          exact ⟨by simp [wf, wfL, noRunL, onlyCur], by simp [status], by simp [id]⟩
        · exact seqRun_spec (tickF f e) ht i m before rest trR n' tr s1 s2 s3 s5 (by rw [s4]; exact hnd) h
    | sel i m st cur cs =>
      simp only [wf, Bool.and_eq_true, decide_eq_true_eq, Bool.or_eq_true, beq_iff_eq] at hw
      obtain ⟨⟨⟨hwl, hrun⟩, hoc⟩, hnd⟩ := hw
      simp only [tickF, bind, Except.bind] at h
      split at h
      · rename_i hemp
        simp only [pure, Except.pure, Except.ok.injEq, Prod.mk.injEq] at h
        obtain ⟨rfl, _⟩ := h
        have : cs = [] := by simpa using hemp
        subst this
        exact ⟨by simp [wf, wfL, noRunL, onlyCur], by simp [status], by simp [id]⟩
      · cases hen : selEntry st m cur cs with
        | error err => simp [hen] at h
        | ok v =>
          obtain ⟨cur0, before, rest, trP⟩ := v
          simp only [hen] at h
          obtain ⟨s1, s2, s3, s4, s5⟩ := selEntry_spec st m cur cur0 cs before rest trP hwl hrun hoc hen
          exact selRun_spec (tickF f e) ht i m cur0 before rest trP n' tr s1 s2 s3 s5 (by rw [s4]; exact hnd) h
    | par i p st cur cs =>
      simp only [wf, Bool.and_eq_true, Bool.or_eq_true, beq_iff_eq] at hw
      obtain ⟨hwl, hrun⟩ := hw
      simp only [tickF, bind, Except.bind] at h
      split at h
      · simp [throw, throwThe, MonadExceptOf.throw] at h
      · have h0 : wfL (if st ≠ .running then stopInvNonInvalid cs else (cs, [])).1 = true := by
          split
          · exact stopInvNonInvalid_wfL cs hwl
          · exact hwl
        generalize (if st ≠ .running then stopInvNonInvalid cs else (cs, [])) = r0 at h h0
        split at h
        · rename_i hemp
          simp only [pure, Except.pure, Except.ok.injEq, Prod.mk.injEq] at h
          obtain ⟨rfl, _⟩ := h
          have : r0.1 = [] := by simpa using hemp
          exact ⟨by simp [wf, this, wfL, noRunL], by simp [status], by simp [id]⟩
        · exact parRun_spec (tickF f e) ht i p r0.1 r0.2 n' tr h0 h
    | dec i k st c =>
      simp only [wf, Bool.and_eq_true, Bool.or_eq_true, beq_iff_eq] at hw
      obtain ⟨⟨hwc, hrun⟩, hk⟩ := hw
      simp only [tickF] at h
      split at h
      · split at h
        · exact decRun_spec (tickF f e) ht e i _ st c n' tr hwc hk h
        · exact decBounce_spec i _ .failure c n' tr (by simp) hwc hk h
      · rename_i b fin
        have : fin ≠ .invalid := by
          simp only [decOK, Bool.or_eq_true, beq_iff_eq] at hk
          rcases hk with h | h <;> simp [h]
        exact decBounce_spec i _ fin c n' tr this hwc hk h
      · exact decRun_spec (tickF f e) ht e i _ st c n' tr hwc hk h

end Node

#print axioms Node.tickF_wf
