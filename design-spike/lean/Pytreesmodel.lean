import Pytreesmodel.Tree
import Pytreesmodel.Inv
import Pytreesmodel.TickInv
import Pytreesmodel.Main
import Pytreesmodel.Names
import Pytreesmodel.Dedup
