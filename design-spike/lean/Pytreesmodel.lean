import Pytreesmodel.Tree
import Pytreesmodel.Inv
import Pytreesmodel.TickInv
import Pytreesmodel.Main
