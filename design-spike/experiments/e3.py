import itertools
from py_trees.blackboard import Blackboard as BB
A = "/ab"
def strs(n):
    for k in range(n+1):
        for t in itertools.product(A, repeat=k): yield "".join(t)
S4 = list(strs(4)); S3=list(strs(3))
def wf_ns(ns): return ns.startswith("/") and "//" not in ns
def wf_key(k): return k != "" and "//" not in k and not k.endswith("/")
bad_idem=[]; bad_inv=[]; bad_inv2=[]; bad_outside=[]
for ns in S3:
    if not wf_ns(ns): continue
    for k in S4:
        if not wf_key(k): continue
        a = BB.absolute_name(ns,k)
        if BB.absolute_name(ns,a)!=a: bad_idem.append((ns,k))
        if k.startswith("/"):
            if a!=k: print("abs changed", ns,k)
            nsn = ns if ns.endswith("/") else ns+"/"
            try:
                r = BB.relative_name(ns,k)
                if not k.startswith(nsn): bad_outside.append((ns,k,r))
                elif BB.absolute_name(ns,r)!=k: bad_inv2.append((ns,k,r))
            except KeyError:
                if k.startswith(nsn): print("KeyError inside", ns,k)
        else:
            nsn = ns if ns.endswith("/") else ns+"/"
            if a != nsn+k: print("placement", ns,k,a)
            try:
                r = BB.relative_name(ns,a)
                if r!=k: bad_inv.append((ns,k,a,r))
            except KeyError as e: bad_inv.append((ns,k,a,"KeyError"))
print("idem", bad_idem[:5], len(bad_idem)); print("inv", bad_inv[:5], len(bad_inv)); print("inv2", bad_inv2[:10], len(bad_inv2)); print("outside", bad_outside[:5])
