import random, sys, operator, collections
import py_trees
from py_trees.common import Status as S, OneShotPolicy as OSP, Access as A
from py_trees.blackboard import Blackboard as BB, Client
import py_trees.composites as C, py_trees.decorators as D, py_trees.idioms as I
OUT={}; TICKLOG=[]
class Probe(py_trees.behaviour.Behaviour):
    def __init__(s,name): super().__init__(name); s.cb=[]
    def initialise(s): s.cb.append("i")
    def update(s): o=OUT[s.name]; s.cb.append("u"+o.value[0]); TICKLOG.append((s.name,o)); return o
    def terminate(s,ns): s.cb.append("t"+ns.value[0])
def rnd(r): return r.choices([S.RUNNING,S.SUCCESS,S.FAILURE],[4,3.5,2.5])[0]
errs=collections.Counter()
def pickup(seed):
    r=random.Random(seed); BB.clear(); n=r.randint(1,4)
    tasks=[Probe("Task %d"%i) for i in range(n)]
    root=I.pick_up_where_you_left_off("pickup",tasks)
    done=set(); 
    for step in range(r.randint(3,30)):
        if r.random()<0.2: root.stop(S.INVALID); continue
        flags={i for i in range(n) if BB.exists("/task_%d_done"%i)}
        if flags!=done: errs["pickup flags!=done %s %s"%(flags,done)]+=1; return
        for t in tasks: OUT[t.name]=rnd(r)
        TICKLOG.clear(); root.tick_once()
        ticked=[int(nm.split()[1]) for nm,_ in TICKLOG]
        if ticked!=sorted(ticked) or len(set(ticked))!=len(ticked): errs["pickup order"]+=1
        for i in ticked:
            if i in done: errs["pickup rerun"]+=1
            if any(j not in done for j in range(i)): errs["pickup skipped predecessor"]+=1
            if OUT["Task %d"%i]==S.SUCCESS: done.add(i)
        if root.status==S.SUCCESS:
            if len(done)!=n: errs["pickup success early"]+=1
            done=set()
def oneshot(seed):
    r=random.Random(seed); BB.clear(); pol=r.choice(list(OSP)); idiom=r.random()<0.5
    t=Probe("T")
    child = t if r.random()<0.5 else C.Sequence("inner",True,[t,Probe("U")])
    root = I.oneshot(child,"os","flag",pol) if idiom else D.OneShot("os",child,pol)
    final=None
    for step in range(r.randint(3,25)):
        if r.random()<0.2: root.stop(S.INVALID); continue
        OUT["T"]=rnd(r); OUT["U"]=rnd(r)
        TICKLOG.clear(); root.tick_once()
        if final is not None:
            if TICKLOG: errs["oneshot reticked idiom=%s pol=%s"%(idiom,pol.name)]+=1
            if root.status!=final: errs["oneshot status changed idiom=%s"%idiom]+=1
        else:
            cs = child.status
            # expected mirror
            if root.status!=cs and not (cs==S.INVALID): errs["oneshot no mirror idiom=%s pol=%s root=%s child=%s"%(idiom,pol.name,root.status,cs)]+=1
            if root.status in pol.value: final=root.status
def eitheror(seed):
    r=random.Random(seed); BB.clear(); n=2
    w=Client(name="w"); 
    for k in "ab": w.register_key(k,A.WRITE)
    subs=[Probe("S0"),Probe("S1")]
    root=I.either_or([py_trees.common.ComparisonExpression(k,1,operator.eq) for k in "ab"],subs,namespace="eo")
    chosen=None
    for step in range(r.randint(3,25)):
        for k in "ab":
            x=r.random()
            if x<0.45: setattr(w,k,1)
            elif x<0.9: setattr(w,k,0)
            else: w.unset(k)
        if r.random()<0.15: root.stop(S.INVALID); chosen=None; continue
        conds=[BB.storage.get("/"+k)==1 for k in "ab"]
        for s_ in subs: OUT[s_.name]=rnd(r)
        TICKLOG.clear(); root.tick_once()
        ticked=[nm for nm,_ in TICKLOG]
        if len(ticked)>1: errs["eo two ticked"]+=1
        if chosen is None:
            missing=any(("/"+k) not in BB.storage for k in "ab")
            if sum(conds)==1 and not missing:
                want="S%d"%conds.index(True)
                if ticked!=[want]:
                    errs["eo wrong choice"]+=1
                    if errs["eo wrong choice"]<3: print(seed, step, conds, dict(BB.storage), ticked, root.status, py_trees.display.ascii_tree(root,show_status=True))
            else:
                if ticked: errs["eo ticked without exactly one"]+=1
                if root.status!=S.FAILURE: errs["eo not failure"]+=1
        else:
            if ticked!=[chosen]: errs["eo revisited choice %s %s"%(ticked,chosen)]+=1
        chosen = ticked[0] if (ticked and root.status==S.RUNNING) else None
        run=[s_ for s_ in subs if s_.status==S.RUNNING]
        if len(run)>1: errs["eo two running"]+=1
for seed in range(3000):
    pickup(seed); oneshot(seed); eitheror(seed)
print(errs)
