import py_trees, operator
from py_trees.common import Status as S, Access as A
from py_trees.blackboard import Blackboard as BB, Client
import py_trees.behaviours as B, py_trees.composites as C, py_trees.decorators as D
import py_trees.trees, py_trees.visitors, py_trees.idioms

def hdr(s): print("\n=== "+s)
class Probe(py_trees.behaviour.Behaviour):
    def __init__(s, name, script=None):
        super().__init__(name); s.next = S.SUCCESS; s.log = []
    def initialise(s): s.log.append("init")
    def update(s): s.log.append("upd:%s"%s.next.value[0]); return s.next
    def terminate(s, ns): s.log.append("term:%s"%ns.value[0])
def sts(root): return {n.name:n.status.value[0] for n in root.iterate()}

hdr("C11 rejected add_child leaves child in list")
a = Probe("a"); p1 = C.Sequence("p1", True, [a]); p2 = C.Sequence("p2", True)
try: p2.add_child(a)
except RuntimeError as e: print("RuntimeError", e)
print("p2.children", [c.name for c in p2.children], "a.parent", a.parent.name)
hdr("C11 insert/prepend an already-parented child")
p3 = C.Sequence("p3", True); p3.insert_child(a, 0); print([c.name for c in p1.children],[c.name for c in p3.children], a.parent.name)
hdr("C11 decorator adopting already-parented child")
d = D.Inverter("inv", a); print(a.parent.name, [c.name for c in p1.children])
hdr("C11 remove_child non-member")
q = Probe("q"); s0 = C.Sequence("s0", True, [Probe("x")])
q.next = S.RUNNING; q.tick_once()
try: s0.remove_child(q)
except Exception as e: print(type(e).__name__, e, "q.status", q.status)
hdr("C11 replace_child with parented replacement")
x=Probe("x"); y=Probe("y"); pa=C.Sequence("pa",True,[x]); pb=C.Sequence("pb",True,[y])
pa.replace_child(x,y); print([c.name for c in pa.children],[c.name for c in pb.children], y.parent.name, x.parent)

hdr("C13 remove current child of memory sequence then tick")
a,b,c = Probe("a"),Probe("b"),Probe("c"); b.next=S.RUNNING
seq = C.Sequence("seq", True, [a,b,c]); t = py_trees.trees.BehaviourTree(seq)
t.tick(); print(sts(seq), "cur", seq.current_child.name)
print("prune b:", t.prune_subtree(b.id), "b.status", b.status, "seq.status", seq.status, "cur", seq.current_child)
try: t.tick(); print(sts(seq))
except BaseException as e: print("tick raised", type(e).__name__, e)
hdr("C13 same for memory selector")
a,b,c = Probe("a"),Probe("b"),Probe("c"); a.next=S.FAILURE; b.next=S.RUNNING
sel = C.Selector("sel", True, [a,b,c]); t = py_trees.trees.BehaviourTree(sel)
t.tick(); t.prune_subtree(b.id)
try: t.tick(); print(sts(sel))
except BaseException as e: print("tick raised", type(e).__name__, e)
hdr("C13 prune child of decorator")
a=Probe("a"); d=D.Inverter("inv",a); root=C.Sequence("r",True,[d]); t=py_trees.trees.BehaviourTree(root)
try: print(t.prune_subtree(a.id))
except BaseException as e: print("raised", type(e).__name__, e)
try: print(t.replace_subtree(a.id, Probe("z")))
except BaseException as e: print("raised", type(e).__name__, e)
try: print(t.insert_subtree(Probe("z"), d.id, 0))
except BaseException as e: print("raised", type(e).__name__, e)

hdr("C04 selector stale lower priority on re-entry")
a,b,c = Probe("a"),Probe("b"),Probe("c"); a.next=S.FAILURE; b.next=S.FAILURE; c.next=S.SUCCESS
sel = C.Selector("sel", False, [a,b,c]); sel.tick_once(); print(sts(sel), sel.current_child.name)
a.next=S.RUNNING; sel.tick_once(); print(sts(sel), sel.current_child.name)

hdr("C12 snapshot changed flag with shrinking visited set")
a,b = Probe("a"),Probe("b"); b.next=S.RUNNING
seq = C.Sequence("seq", True, [a,b]); t = py_trees.trees.BehaviourTree(seq); sv = py_trees.visitors.SnapshotVisitor(); t.add_visitor(sv)
t.tick(); v1 = dict(sv.visited); t.tick(); print("changed", sv.changed, "same map?", sv.visited == sv.previously_visited, len(sv.visited), len(sv.previously_visited))

hdr("C18 either_or with three true conditions")
BB.clear()
w = Client(name="w")
for k in "abc": w.register_key(k, A.WRITE); setattr(w,k,1)
subs=[Probe("s1"),Probe("s2"),Probe("s3")]
for s_ in subs: s_.next=S.RUNNING
eo = py_trees.idioms.either_or([py_trees.common.ComparisonExpression(k,1,operator.eq) for k in "abc"], subs, namespace="eo")
eo.tick_once(); print(eo.status, [s_.log for s_ in subs])
