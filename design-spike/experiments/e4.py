import py_trees, types
from py_trees.common import Status as S
import py_trees.composites as C, py_trees.decorators as D
LOG=[]
class Clock:
    now=0.0
    def monotonic(self): return self.now
    def time(self): return self.now
clk=Clock()
py_trees.decorators.time = clk; py_trees.timers.time = clk
class Probe(py_trees.behaviour.Behaviour):
    def __init__(s,name): super().__init__(name); s.next=S.SUCCESS
    def initialise(s): LOG.append(("init",s.name))
    def update(s): LOG.append(("upd",s.name,s.next.value[0])); return s.next
    def terminate(s,ns): LOG.append(("term",s.name,ns.value[0]))
def wrap(node):
    orig = node.tick
    def tick():
        LOG.append(("enter",node.name))
        for n in orig():
            yield n
    node.tick = tick
a=Probe("a"); b=Probe("b"); b.next=S.RUNNING
t=D.Timeout("to", b, duration=2.0)
seq=C.Sequence("seq",True,[a,t])
for n in seq.iterate(): wrap(n)
bt=py_trees.trees.BehaviourTree(seq)
class V(py_trees.visitors.VisitorBase):
    def run(self,b): LOG.append(("visit",b.name,b.status.value[0]))
bt.add_visitor(V())
for now in [0.0,1.0,2.0,3.0]:
    clk.now=now; bt.tick(); print(now, LOG); LOG.clear()
