import random, sys, copy
from py_trees.common import Access as A
from py_trees.blackboard import Blackboard as BB, Client
class Obj:
    def __init__(s, **kw): s.__dict__.update(kw)
def snap_val(v):
    if isinstance(v,Obj): return ("obj",tuple(sorted((k,snap_val(x)) for k,x in vars(v).items())))
    return v
def snap():
    return (tuple(sorted((k,snap_val(v)) for k,v in BB.storage.items())),
            tuple(sorted((k,tuple(sorted(map(str,m.read))),tuple(sorted(map(str,m.write))),tuple(sorted(map(str,m.exclusive)))) for k,m in BB.metadata.items())),
            tuple(sorted(map(str,BB.clients))))
def csnap(c): return (tuple(sorted(c.read)),tuple(sorted(c.write)),tuple(sorted(c.exclusive)),tuple(sorted(c.required)),tuple(sorted(c.remappings.items())))
def run(seed):
    r=random.Random(seed); BB.clear()
    nss=[None,"a","a/b","/a/","c"]
    clients=[Client(name="c%d"%i, namespace=r.choice(nss)) for i in range(r.randint(2,4))]
    keys=["k","j","/a/k","/a/b/k","b/k","/k"]
    errs=[]; hist=[]
    for step in range(r.randint(5,40)):
        c=r.choice(clients); k=r.choice(keys); op=r.choice(["reg","reg","unregkey","set","get","unset","unregall","verify"])
        before=snap(); cb=csnap(c)
        ns=c.namespace; absk=BB.absolute_name(ns,k)
        canw = absk in c.write or absk in c.exclusive
        canr = canw or absk in c.read
        hist.append((op,c.name,k))
        try:
            if op=="reg":
                acc=r.choice([A.READ,A.WRITE,A.EXCLUSIVE_WRITE,"bogus"]); remap=r.choice([None,None,"/shared","/a/k"]); req=r.random()<0.3
                hist[-1]+=(str(acc),remap,req)
                if absk in c.remappings and c.remappings[absk]!=(remap or absk): hist.pop(); continue   # avoid K4
                try:
                    c.register_key(k,acc,required=req,remap_to=remap)
                except (AttributeError,TypeError) as e:
                    if snap()!=before or csnap(c)!=cb: errs.append(("C08 rejected changed state",type(e).__name__))
            elif op=="unregkey":
                try: c.unregister_key(k, clear=r.random()<0.5)
                except KeyError: 
                    if snap()!=before or csnap(c)!=cb: errs.append("unregkey KeyError changed state")
            elif op=="unregall":
                c.unregister_all_keys(clear=r.random()<0.5)
                if c.read or c.write or c.exclusive or c.remappings: errs.append("unregall left stuff")
            elif op=="set":
                v=r.randint(0,3); ow=r.random()<0.7
                try:
                    res=c.set(k,v,overwrite=ow)
                    if not canw: errs.append("C07 set allowed without write")
                except AttributeError:
                    if canw: errs.append("C07 set denied with write")
                    if snap()!=before: errs.append("C07 denied set changed store")
            elif op=="get":
                try:
                    v=c.get(k)
                    if not canr: errs.append("C07 get allowed")
                    if v!=BB.storage[c.remappings[absk]]: errs.append("C06 get wrong")
                except AttributeError:
                    if canr: errs.append("C07 get denied with read")
                except KeyError:
                    if not canr: errs.append("get KeyError w/o access")
                    elif c.remappings[absk] in BB.storage: errs.append("C06 KeyError but present")
            elif op=="unset":
                try:
                    res=c.unset(k)
                    if not canw: errs.append("C07 unset allowed without write")
                except (AttributeError,KeyError):
                    if snap()!=before: errs.append("unset denied changed")
            elif op=="verify":
                try: c.verify_required_keys_exist()
                except KeyError: pass
                except AttributeError: errs.append("C14 verify AttributeError")
        except Exception as e:
            errs.append(("EXC",op,type(e).__name__,str(e)[:60]))
        # invariants
        for loc,m in BB.metadata.items():
            if m.exclusive and (len(m.exclusive)!=1 or m.write): errs.append("C08 excl inv %s"%loc)
            for (nm_,st,cs) in (("read",m.read,"read"),("write",m.write,"write"),("excl",m.exclusive,"exclusive")):
                want={cl.unique_identifier for cl in clients if any(cl.remappings.get(kk)==loc for kk in getattr(cl,cs))}
                if want!=st: errs.append("C14 mirror %s %s"%(loc,nm_))
            if not (m.read or m.write or m.exclusive): errs.append("C14 empty meta %s"%loc)
        for cl in clients:
            for s_ in (cl.read,cl.write,cl.exclusive):
                for kk in s_:
                    if kk not in cl.remappings or cl.remappings[kk] not in BB.metadata: errs.append("C14 client key w/o meta")
            if not cl.required <= (cl.read|cl.write|cl.exclusive): errs.append("C14 required not registered")
        if errs: return seed,hist,errs
    return None
cnt=collections=None
import collections
kinds=collections.Counter(); bad=0
for seed in range(int(sys.argv[1]),int(sys.argv[2])):
    res=run(seed)
    if res:
        bad+=1
        for e in res[2]: kinds[str(e)[:50]]+=1
print("bad",bad); 
for k,v in kinds.most_common(): print(v,k)
shown=0
for seed in range(int(sys.argv[1]),int(sys.argv[2])):
    res=run(seed)
    if res and any(("w/o meta" in str(e) or "mirror" in str(e)) for e in res[2]) and shown<3:
        shown+=1; print("SEED",res[0]); 
        for h in res[1]: print("   ",h)
        print(res[2])
