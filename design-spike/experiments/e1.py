import py_trees, operator
from py_trees.common import Status as S, Access as A
from py_trees.blackboard import Blackboard as BB, Client
import py_trees.behaviours as B, py_trees.composites as C, py_trees.decorators as D

def hdr(s): print("\n=== "+s)

hdr("C16 activity stream bound")
BB.clear(); BB.enable_activity_stream(maximum_size=3)
w = Client(name="w"); w.register_key("k", A.WRITE)
for i in range(8): w.k = i
print([it.current_value for it in BB.activity_stream.data], "max=3")

hdr("C06 nested set depth 2")
BB.clear()
class N: pass
w = Client(name="w"); w.register_key("k", A.WRITE)
o = N(); o.a = N(); o.a.b = 1; w.k = o
print("set k.a.b:", w.set("k.a.b", 5)); 
try: print("get k.a.b:", w.get("k.a.b"))
except Exception as e: print("get raised", type(e), e)
print(vars(o), vars(o.a))

hdr("C07 unset through READ-only")
BB.clear()
w = Client(name="w"); w.register_key("k", A.WRITE); w.k = 1
r = Client(name="r"); r.register_key("k", A.READ)
print("r.unset ->", r.unset("k"), BB.storage)

hdr("C07 unset via rejected registration")
BB.clear()
x = Client(name="x"); x.register_key("k", A.EXCLUSIVE_WRITE); x.k = 1
y = Client(name="y")
try: y.register_key("k", A.WRITE)
except AttributeError as e: print("rejected:", e)
print("y.remappings", y.remappings, "y.write", y.write)
print("y.unset ->", y.unset("k"), BB.storage)

hdr("C08 bad access argument leaves remapping")
z = Client(name="z")
try: z.register_key("q", "READ")
except TypeError as e: print("TypeError", e)
print("z.remappings", z.remappings)

hdr("C14 required not cleaned on unregister_key")
BB.clear()
c = Client(name="c"); c.register_key("k", A.READ, required=True)
c.unregister_key("k")
print("required:", c.required)
try: c.verify_required_keys_exist(); print("ok")
except Exception as e: print("verify raised", type(e).__name__, e)

hdr("C14 same key READ then WRITE then unregister")
BB.clear()
c = Client(name="c"); c.register_key("k", A.READ); c.register_key("k", A.WRITE)
try: c.unregister(); print("ok")
except Exception as e: print("unregister raised", type(e).__name__, e)
print(BB.clients, BB.metadata.keys())

hdr("C14 re-register with different remap")
BB.clear()
c = Client(name="c"); c.register_key("k", A.READ, remap_to="/L1"); c.register_key("k", A.READ, remap_to="/L2")
c.unregister_key("k")
print({k:(m.read,m.write,m.exclusive) for k,m in BB.metadata.items()})
