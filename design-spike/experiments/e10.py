import random, sys, collections, uuid, runpy
import py_trees
from py_trees.common import Status as S, ParallelPolicy as PP
import py_trees.composites as C, py_trees.decorators as D
ns = runpy.run_path(__import__("os").path.join(__import__("os").path.dirname(__import__("os").path.abspath(__file__)),"e5.py"), run_name="e5lib", init_globals={"__name__":"e5lib"}) if False else None
OUT={}
class Probe(py_trees.behaviour.Behaviour):
    def __init__(s,name): super().__init__(name)
    def update(s): return OUT.get(s.name,S.RUNNING)
errs=collections.Counter()
cnt=[0]
def nm(p): cnt[0]+=1; return "%s%d"%(p,cnt[0])
def gen(r,d):
    k=r.random()
    if d<=0 or k<0.4: return Probe(nm("L"))
    if k<0.85:
        ch=[gen(r,d-1) for _ in range(r.randint(0,3))]
        t=r.randrange(3)
        if t==0: return C.Sequence(nm("Q"),r.random()<.5,ch)
        if t==1: return C.Selector(nm("S"),r.random()<.5,ch)
        return C.Parallel(nm("P"),r.choice([PP.SuccessOnAll(True),PP.SuccessOnAll(False),PP.SuccessOnOne()]),ch)
    return r.choice([D.Inverter,D.RunningIsSuccess,D.FailureIsRunning])(nm("D"),gen(r,d-1))
def consistent(root,tag):
    seen=set()
    for n in root.iterate():
        if id(n) in seen: errs[tag+" dup"]+=1
        seen.add(id(n))
        for c in n.children:
            if c.parent is not n: errs[tag+" parent link"]+=1
        if isinstance(n,C.Composite) and n.current_child is not None and n.current_child not in n.children: errs[tag+" cur not child"]+=1
for seed in range(4000):
    r=random.Random(seed); cnt[0]=0
    root=C.Sequence(nm("Q"),r.random()<.5,[gen(r,2) for _ in range(r.randint(1,3))]) if r.random()<.5 else C.Selector(nm("S"),r.random()<.5,[gen(r,2) for _ in range(r.randint(1,3))])
    bt=py_trees.trees.BehaviourTree(root)
    removed=[]
    for step in range(r.randint(2,12)):
        nodes=list(root.iterate())
        if r.random()<0.45:
            op=r.choice(["prune","insert","replace","bogus"])
            target=r.choice(nodes)
            memcur = isinstance(target.parent,(C.Sequence,C.Selector)) and target.parent.memory and target.parent.status==S.RUNNING and target.parent.current_child is target
            try:
                if op=="prune":
                    if memcur: continue  # avoid known F7
                    res=bt.prune_subtree(target.id)
                    if res:
                        removed.append(target)
                        if any(m.status!=S.INVALID and m.status==S.RUNNING for m in target.iterate()): errs["C13 removed still running"]+=1
                        if target.parent is not None: errs["C13 removed has parent"]+=1
                elif op=="insert":
                    sub=gen(r,1); idx=r.randint(-1,len(target.children)+1)
                    res=bt.insert_subtree(sub,target.id,idx)
                elif op=="replace":
                    if memcur: continue
                    sub=gen(r,1); res=bt.replace_subtree(target.id,sub)
                    if res: removed.append(target)
                else:
                    res=bt.prune_subtree(uuid.uuid4())
                    if res: errs["bogus prune true"]+=1
            except RuntimeError as e:
                if not (target is root or isinstance(target.parent,D.Decorator)): errs["unexpected RuntimeError %s"%str(e)[:30]]+=1
            except TypeError as e:
                if isinstance(target,C.Composite): errs["unexpected TypeError"]+=1
            consistent(root,"C13")
        else:
            for n in nodes:
                if isinstance(n,Probe): OUT[n.name]=r.choices([S.RUNNING,S.SUCCESS,S.FAILURE],[4,3.5,2.5])[0]
            before={id(x) for t in removed for x in t.iterate()}
            try: bt.tick()
            except Exception as e: errs["tick raised %s"%type(e).__name__]+=1; break
            for n in root.iterate():
                if n.status==S.RUNNING and n is not root and n.parent.status!=S.RUNNING: errs["C02 after edit"]+=1
                t=n.tip()
                if (t is None)!=(n.status==S.INVALID): errs["C19 after edit"]+=1
print(errs)
