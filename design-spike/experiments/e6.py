import sys, runpy
import py_trees.composites as C, py_trees.decorators as D, py_trees.common as common
which=sys.argv[3]
if which=="parstop":
    def stop(self,new_status=common.Status.INVALID): C.Composite.stop(self,new_status)
    C.Parallel.stop=stop
if which=="decstop":
    def stop(self,new_status):
        self.terminate(new_status)
        if new_status==common.Status.INVALID: self.decorated.stop(new_status)
        self.status=new_status
    D.Decorator.stop=stop
if which=="compstop":
    def stop(self,new_status=common.Status.INVALID):
        if new_status==common.Status.INVALID:
            self.current_child=None
            for child in self.children:
                if child.status==common.Status.RUNNING: child.stop(new_status)
        self.terminate(new_status); self.status=new_status
    C.Composite.stop=stop; 
sys.argv=[sys.argv[0],sys.argv[1],sys.argv[2]]
runpy.run_path(__import__("os").path.join(__import__("os").path.dirname(__import__("os").path.abspath(__file__)),"e5.py"), run_name="__main__")
