import random, re, sys, collections
import py_trees
from py_trees.common import Status as S, ParallelPolicy as PP, VisibilityLevel as VL, BlackBoxLevel as BL
import py_trees.composites as C, py_trees.decorators as D, py_trees.display as disp, py_trees.console as console
from py_trees.blackboard import Blackboard as BB
names=["a","a","b","a\nb","a*","x y"]
def gen(r,d):
    k=r.random(); n=r.choice(names)
    if d<=0 or k<0.35: b=py_trees.behaviours.StatusQueue(n,[r.choice(list(S)[:3])],r.choice(list(S)[:3]))
    elif k<0.7:
        ch=[gen(r,d-1) for _ in range(r.randint(0,3))]
        b=r.choice([lambda:C.Sequence(n,r.random()<.5,ch),lambda:C.Selector(n,r.random()<.5,ch),lambda:C.Parallel(n,PP.SuccessOnAll(),ch)])()
    else: b=r.choice([D.Inverter,D.Count,D.RunningIsSuccess])(n,gen(r,d-1))
    b.blackbox_level=r.choice(list(BL))
    return b
esc=re.compile(r"\x1b\[[0-9;]*m")
errs=collections.Counter()
def depthmap(root):
    out=[]
    def rec(n,d):
        out.append((n,d))
        for c in n.children: rec(c,d+1)
    rec(root,0); return out
for seed in range(1500):
    r=random.Random(seed); BB.clear(); BB.enable_activity_stream(50)
    root=gen(r,3)
    for _ in range(r.randint(0,3)): root.tick_once()
    before=[(n.status,n.feedback_message) for n in root.iterate()]; st=dict(BB.storage); al=len(BB.activity_stream.data)
    for fn in (disp.ascii_tree,disp.unicode_tree):
        for ss in (False,True):
            txt=fn(root,show_status=ss); lines=txt.split("\n")[:-1]; dm=depthmap(root)
            if len(lines)!=len(dm): errs["linecount %s"%fn.__name__]+=1; continue
            for ln,(n,d) in zip(lines,dm):
                ln=esc.sub("",ln); ind=len(ln)-len(ln.lstrip(" "))
                if ind!=4*d: errs["indent"]+=1
                if n.name.replace("\n"," ") not in ln: errs["name"]+=1
    x=disp.xhtml_tree(root)
    if x.count("<br/>")!=len(depthmap(root)): errs["xhtml"]+=1
    for vl in VL:
        for cd in (False,True):
            g=disp.dot_tree(root,visibility_level=vl,collapse_decorators=cd)
            nn=[n.get_name() for n in g.get_nodes() if n.get_name() not in ("node","edge","graph")]
            if len(nn)!=len(set(nn)): errs["dot dup"]+=1
            def shown(n):
                cnt=1
                if isinstance(n,D.Decorator) and cd: return 1
                if vl < n.blackbox_level:
                    for c in n.children: cnt+=shown(c)
                return cnt
            if len(nn)!=shown(root): errs["dot count %d %d"%(len(nn),shown(root))]+=1
            if len(g.get_edges())!=len(nn)-1: errs["dot edges"]+=1
    disp.unicode_blackboard(); disp.ascii_blackboard(display_only_key_metadata=True); disp.unicode_blackboard_activity_stream()
    after=[(n.status,n.feedback_message) for n in root.iterate()]
    if before!=after or st!=dict(BB.storage) or al!=len(BB.activity_stream.data): errs["mutated"]+=1
print(errs)
