import random, sys, collections
import py_trees
from py_trees.common import Status as S, ParallelPolicy as PP, OneShotPolicy as OSP
import py_trees.composites as C, py_trees.decorators as D
LOG=[]; OUT={}; GUARD={}
class Clock:
    now=0.0
    def monotonic(self): return self.now
    def time(self): return self.now
clk=Clock(); py_trees.decorators.time=clk; py_trees.timers.time=clk
class Probe(py_trees.behaviour.Behaviour):
    def __init__(s,name): super().__init__(name); s.cb=[]
    def initialise(s): s.cb.append("i"); LOG.append(("I",s.name))
    def update(s):
        o=OUT[s.name]; s.cb.append("u"+o.value[0]); LOG.append(("U",s.name,o.value[0])); return o
    def terminate(s,ns): s.cb.append("t"+ns.value[0]); LOG.append(("X",s.name,ns.value[0]))
cnt=[0]
def nm(p): cnt[0]+=1; return "%s%d"%(p,cnt[0])
def gen(r,depth):
    k=r.random()
    if depth<=0 or k<0.3: return Probe(nm("L"))
    if k<0.65:
        n=r.choice([0,1,2,2,3,3,4]); ch=[gen(r,depth-1) for _ in range(n)]
        t=r.randrange(3)
        if t==0: return C.Sequence(nm("Q"), r.random()<0.5, ch)
        if t==1: return C.Selector(nm("S"), r.random()<0.5, ch)
        pk=r.randrange(3)
        if pk==0: pol=PP.SuccessOnAll(synchronise=r.random()<0.5)
        elif pk==1: pol=PP.SuccessOnOne()
        else:
            if not ch: pol=PP.SuccessOnAll()
            else: pol=PP.SuccessOnSelected(children=r.sample(ch, r.randint(1,len(ch))), synchronise=r.random()<0.5)
        return C.Parallel(nm("P"), pol, ch)
    c=gen(r,depth-1); d=r.randrange(16); n=nm("D")
    if d==0: return D.Inverter(n,c)
    if d==1: return D.RunningIsFailure(n,c)
    if d==2: return D.RunningIsSuccess(n,c)
    if d==3: return D.FailureIsSuccess(n,c)
    if d==4: return D.FailureIsRunning(n,c)
    if d==5: return D.SuccessIsFailure(n,c)
    if d==6: return D.SuccessIsRunning(n,c)
    if d==7: return D.PassThrough(n,c)
    if d==8: return D.Count(n,c)
    if d==9: return D.Retry(n,c,r.randint(1,3))
    if d==10: return D.Repeat(n,c,r.choice([-1,1,2,3]))
    if d==11: return D.Condition(n,c,r.choice([S.SUCCESS,S.FAILURE,S.RUNNING]))
    if d==12: return D.Timeout(n,c,float(r.randint(0,3)))
    if d==13:
        g=n; GUARD[g]=True
        return D.EternalGuard(n,c,condition=(lambda g=g: GUARD[g]))
    if d==14: return D.OneShot(n,c,r.choice(list(OSP)))
    return D.StatusToBlackboard(n,c,"v_"+n)
def wrap(node):
    orig=node.tick
    def tick():
        LOG.append(("E",node.name))
        for x in orig(): yield x
    node.tick=tick
AUT={}
def check_leaf(l):
    st="idle"
    for ev in l.cb:
        if st=="idle":
            if ev=="i": st="entered"
            elif ev=="tI": st="idle"
            else: return "bad %s in idle"%ev
        elif st in("entered","running"):
            if ev=="uR": st="running"
            elif ev in("uS","uF"): st="closing"+ev[1]
            elif ev=="tI" and st=="running": st="idle"
            else: return "bad %s in %s"%(ev,st)
        elif st.startswith("closing"):
            if ev=="t"+st[-1]: st="idle"
            else: return "bad %s in %s"%(ev,st)
    if st in("entered",) or st.startswith("closing"): return "ends in "+st
    if (st=="running")!=(l.status==S.RUNNING): return "state %s vs status %s"%(st,l.status)
    return None
def monitors(root, after_stop, ticked):
    errs=[]
    for n in root.iterate():
        if n.status==S.RUNNING and n is not root and n.parent.status!=S.RUNNING: errs.append("C02 dangling %s under %s"%(n.name,n.parent.name))
        if after_stop and n.status!=S.INVALID: errs.append("C02 not invalid after stop %s"%n.name)
        if n.status==S.INVALID:
            for m in n.iterate():
                if m.status!=S.INVALID: errs.append("InvDown %s under %s"%(m.name,n.name))
        t=n.tip()
        if (t is None)!=(n.status==S.INVALID): errs.append("C19 tip none mismatch at %s (%s) tip=%s"%(n.name,n.status,t and t.name))
        if t is not None:
            if t.status==S.INVALID: errs.append("C19 tip invalid at %s -> %s"%(n.name,t.name))
            if t not in list(n.iterate()): errs.append("C19 tip outside")
        if isinstance(n,(C.Selector,C.Sequence)):
            run=[c for c in n.children if any(m.status==S.RUNNING for m in c.iterate())]
            if len(run)>1: errs.append("one-running %s"%n.name)
            if run and (n.current_child is not run[0]): errs.append("running child not current at %s"%n.name)
        if isinstance(n,Probe):
            e=check_leaf(n)
            if e: errs.append("C01 %s: %s %s"%(n.name,e,n.cb))
    if ticked:
        ent=[x[1] for x in LOG if x[0]=="E"]; yl=[x[1] for x in LOG if x[0]=="Y"]
        if sorted(ent)!=sorted(yl) or len(set(yl))!=len(yl): errs.append("C12 entered vs yielded %s %s"%(ent,yl))
        if yl and yl[-1]!=root.name: errs.append("C12 root not last")
        # bracket
        stack=[]
        for x in LOG:
            if x[0]=="E": stack.append(x[1])
            elif x[0]=="Y":
                if not stack or stack[-1]!=x[1]: errs.append("C12 bracket %s"%LOG); break
                stack.pop()
    return errs
def run(seed):
    r=random.Random(seed); cnt[0]=0; GUARD.clear(); py_trees.blackboard.Blackboard.clear()
    root=gen(r,r.randint(1,4))
    if isinstance(root,Probe) and r.random()<0.8: root=C.Sequence(nm("Q"),True,[root,gen(r,2)])
    nodes=list(root.iterate()); leaves=[n for n in nodes if isinstance(n,Probe)]
    for n in nodes: wrap(n)
    hist=[]
    for step in range(r.randint(1,14)):
        LOG.clear()
        if r.random()<0.17:
            root.stop(S.INVALID); hist.append("stop"); errs=monitors(root,True,False)
        else:
            clk.now+=r.randint(0,3)
            for l in leaves: OUT[l.name]=r.choices([S.RUNNING,S.SUCCESS,S.FAILURE],[4,3.5,2.5])[0]
            for g in GUARD: GUARD[g]=r.random()<0.75
            hist.append(("tick",dict((k,v.value[0]) for k,v in OUT.items()),dict(GUARD),clk.now))
            try:
                for n in root.tick(): LOG.append(("Y",n.name,n.status.value[0]))
            except RuntimeError as e:
                return None
            errs=monitors(root,False,True)
        if errs:
            return (seed, py_trees.display.ascii_tree(root,show_status=True), hist, errs)
    return None
bad=0
for seed in range(int(sys.argv[1]), int(sys.argv[2])):
    res=run(seed)
    if res:
        bad+=1
        if bad<=4:
            print("SEED",res[0]); print(res[1]); 
            for h in res[2]: print("  ",h)
            print(res[3][:4])
print("bad",bad)
