#!/venv/bin/python
"""Record the AST digests of every function in py_trees/*.py of /repo's working tree as the state the model was validated
against (harness/source_pins.json). Run after a fix: commit to /repo and a clean run of all checks."""
import glob
import json
import os
import sys

sys.path.insert(0, os.path.join(os.path.dirname(os.path.abspath(__file__)), "..", "harness"))
import drift  # noqa
from common import REPO  # noqa

files = sorted(os.path.relpath(p, REPO) for p in glob.glob(os.path.join(REPO, "py_trees", "*.py")))
json.dump(drift.snapshot(files), open(drift.PINS, "w"), indent=0, sort_keys=True)
print("pinned", len(files), "files")

import py2lean  # noqa
print("pinned", py2lean.pin(REPO), "translations")
