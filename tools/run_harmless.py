#!/usr/bin/env python3
"""Run every check against behaviour-preserving refactorings (false-alarm test).

  tools/run_harmless.py <dir with *.diff> [...]

Each patch is applied to a scratch copy of the library (never to /repo), all 20 quick checks run with VERIF_REPO pointing
at the copy (the translator-tied properties with Lean, the others with --no-lean), and every alarm is listed. The patches
and the result table are kept under /verif/harmless/."""
import glob
import json
import os
import shutil
import subprocess
import sys

VERIF = os.path.dirname(os.path.dirname(os.path.abspath(__file__)))
BASE = os.environ.get("HARMLESS_BASE", "/tmp/cleanrepo")
SCRATCH = os.environ.get("HARMLESS_SCRATCH", "/tmp/hrepo")
PIDS = ["C%02d" % i for i in range(1, 21)]
WITH_LEAN = {"C09", "C10", "C15", "C17", "C19"}


def main():
    out_dir = os.path.join(VERIF, "harmless")
    os.makedirs(out_dir, exist_ok=True)
    res_path = os.path.join(out_dir, "RESULTS%s.json" % os.environ.get("HARMLESS_TAG", ""))
    results = json.load(open(res_path)) if os.path.exists(res_path) else {}
    for d in sys.argv[1:]:
        for diff in sorted(glob.glob(os.path.join(d, "*.diff"))):
            tag = "%s-%s" % (os.path.basename(os.path.normpath(d)), os.path.splitext(os.path.basename(diff))[0])
            if tag in results and "--force" not in sys.argv:
                continue
            shutil.rmtree(SCRATCH, ignore_errors=True)
            os.makedirs(SCRATCH)
            shutil.copytree(os.path.join(BASE, "py_trees"), os.path.join(SCRATCH, "py_trees"))
            p = subprocess.run(["patch", "-p1", "-s", "-i", os.path.abspath(diff)], cwd=SCRATCH,
                               stdout=subprocess.PIPE, stderr=subprocess.STDOUT)
            if p.returncode != 0:
                results[tag] = {"applies": False, "log": p.stdout.decode()[-500:]}
                continue
            alarms = {}
            notes = []
            for pid in PIDS:
                cmd = [os.path.join(VERIF, "check"), pid] + ([] if pid in WITH_LEAN else ["--no-lean"])
                env = dict(os.environ, VERIF_REPO=SCRATCH, VERIF_SEED="1")
                q = subprocess.run(cmd, cwd=VERIF, env=env, stdout=subprocess.PIPE, stderr=subprocess.STDOUT)
                out = q.stdout.decode(errors="replace")
                for l in out.split("\n"):
                    if l.startswith("VIOLATION") or l.startswith("INFRA"):
                        alarms[pid] = l.strip()
                        rp = [w for w in l.split() if w.startswith("replay=")]
                        if rp:
                            src = os.path.join(VERIF, rp[0][7:])
                            if os.path.exists(src):
                                shutil.copy(src, os.path.join(out_dir, "%s-%s.replay.json" % (tag, pid)))
                    if l.startswith("NOTE"):
                        notes.append(l.strip()[:200])
                if q.returncode not in (0, 1) and pid not in alarms:
                    alarms[pid] = "exit %d: %s" % (q.returncode, out[-300:])
            shutil.copy(diff, os.path.join(out_dir, tag + ".diff"))
            md = os.path.splitext(diff)[0] + ".md"
            if os.path.exists(md):
                shutil.copy(md, os.path.join(out_dir, tag + ".md"))
            results[tag] = {"applies": True, "alarms": alarms, "notes": notes}
            print(tag, "ALARMS" if alarms else "quiet", alarms, flush=True)
            json.dump(results, open(res_path, "w"), indent=1, sort_keys=True)
    shutil.rmtree(SCRATCH, ignore_errors=True)
    json.dump(results, open(res_path, "w"), indent=1, sort_keys=True)


if __name__ == "__main__":
    main()
