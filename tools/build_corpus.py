#!/usr/bin/env python3
"""Build the regression corpus from the seeded changes: for each seeded/<id>/patch.diff, apply it to a scratch copy of the
library, run the own property's quick check and keep the scenario of the oracle replay as corpus/<Cxx>/<id>.json.
Corpus scenarios run first in every check of that property (on the unchanged tree they pass: they are ordinary generated
scenarios; on a tree carrying that change they fail deterministically, whatever the seed)."""
import glob
import json
import os
import shutil
import subprocess
import sys

VERIF = os.path.dirname(os.path.dirname(os.path.abspath(__file__)))
BASE = os.environ.get("HARMLESS_BASE", "/tmp/cleanrepo")
SCRATCH = "/tmp/corpusrepo"
SEED = "77"


def main():
    only = set(sys.argv[1:])
    for meta_path in sorted(glob.glob(os.path.join(VERIF, "seeded", "*", "meta.json"))):
        m = json.load(open(meta_path))
        mid, pid = m["id"], m["breaks_property"]
        if only and mid not in only:
            continue
        dst = os.path.join(VERIF, "corpus", pid, mid + ".json")
        if os.path.exists(dst) and not only:
            continue
        shutil.rmtree(SCRATCH, ignore_errors=True)
        os.makedirs(SCRATCH)
        shutil.copytree(os.path.join(BASE, "py_trees"), os.path.join(SCRATCH, "py_trees"))
        p = subprocess.run(["patch", "-p1", "-s", "-i", os.path.join(os.path.dirname(meta_path), "patch.diff")],
                           cwd=SCRATCH, stdout=subprocess.PIPE, stderr=subprocess.STDOUT)
        if p.returncode != 0:
            print(mid, "patch does not apply")
            continue
        env = dict(os.environ, VERIF_REPO=SCRATCH, VERIF_SEED=SEED, VERIF_CORPUS="0")
        q = subprocess.run([os.path.join(VERIF, "check"), pid, "--no-lean"], cwd=VERIF, env=env,
                           stdout=subprocess.PIPE, stderr=subprocess.STDOUT)
        out = q.stdout.decode(errors="replace")
        line = next((l for l in out.split("\n") if l.startswith("VIOLATION")), None)
        if line is None or "no-failing-input-found" in line:
            print(mid, "no oracle replay:", (line or out[-200:]).strip())
            continue
        rp = os.path.join(VERIF, [w for w in line.split() if w.startswith("replay=")][0][7:])
        d = json.load(open(rp))
        scn = d["scenario"]
        scn.setdefault("meta", {})
        if isinstance(scn.get("meta"), dict):
            scn["meta"]["from_seeded"] = mid
            scn["meta"]["clause"] = d.get("clause")
        os.makedirs(os.path.dirname(dst), exist_ok=True)
        json.dump(scn, open(dst, "w"), indent=1, default=str)
        print(mid, "->", os.path.relpath(dst, VERIF), "clause", d.get("clause"))
    shutil.rmtree(SCRATCH, ignore_errors=True)


if __name__ == "__main__":
    main()
