#!/usr/bin/env python3
"""Confirms each seeded change produced by the independent sub-agents and files it under /verif/seeded/<id>/.

For every /tmp/mut/<Cxx>/out/<A|B>: (1) in a scratch worktree of /repo (outside /repo and /verif): the patch applies,
the pinned test suite still passes with it (114 passed, only test_tree_setup failing), the demonstration fails with the
patch and passes without it; (2) with the patch applied to /repo itself, every registered quick check is run and the
checks that raise an alarm are recorded; the patch is reverted straight afterwards.
"""
import json
import os
import re
import shutil
import subprocess
import sys

VERIF = os.path.dirname(os.path.dirname(os.path.abspath(__file__)))
SRC = "/tmp/mut"
WT = "/tmp/seedwt"
PROPS = ["C%02d" % i for i in range(1, 21)]


def sh(cmd, cwd=None, timeout=900):
    p = subprocess.run(cmd, shell=True, cwd=cwd, stdout=subprocess.PIPE, stderr=subprocess.STDOUT, timeout=timeout)
    return p.returncode, p.stdout.decode(errors="replace")


def main():
    only = [a for a in sys.argv[1:] if not a.startswith("--")]
    waves = "QR" if "--wave9" in sys.argv else "OP" if "--wave8" in sys.argv else "MN" if "--wave7" in sys.argv else "KL" if "--wave6" in sys.argv else "IJ" if "--wave5" in sys.argv else "GH" if "--wave4" in sys.argv else "EF" if "--wave3" in sys.argv else "CD" if "--wave2" in sys.argv else ("AB" if "--wave1" in sys.argv else "ABCD")
    sh("git -C /repo worktree remove --force %s" % WT)
    rc, out = sh("git -C /repo worktree add --detach %s HEAD" % WT)
    assert rc == 0, out
    sp = os.path.join(VERIF, "seeded", "SUMMARY.json")
    summary = json.load(open(sp)) if os.path.exists(sp) else {}
    try:
        for prop in PROPS:
            for v in waves:
                src = os.path.join(SRC, prop, "out", v)
                sid = "%s-%s" % (prop, v)
                if only and sid not in only:
                    continue
                if "--resume" in sys.argv and sid in summary:
                    continue
                if not os.path.exists(os.path.join(src, "patch.diff")):
                    continue
                dst = os.path.join(VERIF, "seeded", sid)
                os.makedirs(dst, exist_ok=True)
                shutil.copy(os.path.join(src, "patch.diff"), dst)
                shutil.copy(os.path.join(src, "demo.py"), dst)
                if os.path.exists(os.path.join(src, "notes.md")):
                    shutil.copy(os.path.join(src, "notes.md"), dst)
                meta = {"id": sid, "breaks_property": prop, "source": "independent sub-agent given only the property text "
                        "and a scratch worktree", "ran": []}
                sh("git checkout -- . && git clean -fdq", cwd=WT)
                os.makedirs(os.path.join(WT, "out", v), exist_ok=True)
                shutil.copy(os.path.join(src, "demo.py"), os.path.join(WT, "out", v, "demo.py"))
                rc0, o0 = sh("/venv/bin/python out/%s/demo.py" % v, cwd=WT)
                meta["demo_without_patch_exit"] = rc0
                rc, o = sh("git apply %s" % os.path.join(dst, "patch.diff"), cwd=WT)
                meta["applies"] = rc == 0
                rc1, o1 = sh("/venv/bin/python out/%s/demo.py" % v, cwd=WT)
                meta["demo_with_patch_exit"] = rc1
                meta["demo_with_patch_tail"] = o1.strip().split("\n")[-1][:300]
                rc2, o2 = sh("/venv/bin/python -m pytest -q -p no:cacheprovider --timeout=900 2>&1 | tail -3", cwd=WT)
                m = re.search(r"(\d+) failed, (\d+) passed", o2)
                meta["pytest_with_patch"] = m.group(0) if m else o2.strip()[-120:]
                meta["tests_still_pass"] = bool(m and m.group(1) == "1" and m.group(2) == "114")
                sh("git checkout -- . && git clean -fdq", cwd=WT)
                meta["ran"] = ["cd <scratch worktree> && python out/%s/demo.py (unpatched: exit %d; patched: exit %d)"
                               % (v, rc0, rc1), "pytest with patch: " + str(meta["pytest_with_patch"])]
                meta["confirmed"] = bool(meta["applies"] and rc0 == 0 and rc1 != 0 and meta["tests_still_pass"])
                notes = os.path.join(src, "notes.md")
                meta["needs_to_manifest"] = open(notes).read()[:1500] if os.path.exists(notes) else ""
                # detection by the registered checks, on /repo itself
                det = {}
                rc, o = sh("git -C /repo apply %s" % os.path.join(dst, "patch.diff"))
                if rc == 0:
                    try:
                        def one(p):
                            # the boosted failing-input search is only run for the property the change targets
                            pre = "" if p == prop else "VERIF_SEARCH=0 "
                            rcc, oc = sh("%s%s/check %s --no-lean" % (pre, VERIF, p), cwd=VERIF, timeout=1200)
                            line = next((l for l in oc.split("\n") if l.startswith("VIOLATION")), "")
                            if rcc == 1:
                                return p, ("no-failing-input-found" if "no-failing-input-found" in line
                                           else "oracle-replay")
                            if rcc != 0:
                                return p, "exit %d" % rcc
                            return p, None
                        from concurrent.futures import ThreadPoolExecutor
                        with ThreadPoolExecutor(max_workers=10) as ex:      # all twenty see the same patched /repo
                            for p, r in ex.map(one, PROPS):
                                if r is not None:
                                    det[p] = r
                    finally:
                        sh("git -C /repo checkout -- .")
                meta["detected_by"] = det
                meta["caught_by_own_property"] = det.get(prop)
                json.dump(meta, open(os.path.join(dst, "meta.json"), "w"), indent=1)
                summary[sid] = (meta["confirmed"], det.get(prop), sorted(det))
                print(sid, "confirmed" if meta["confirmed"] else "NOT-CONFIRMED", "own:", det.get(prop), "all:", sorted(det),
                      flush=True)
    finally:
        sh("git -C /repo checkout -- .")
        sh("git -C /repo worktree remove --force %s" % WT)
    json.dump(summary, open(os.path.join(VERIF, "seeded", "SUMMARY.json"), "w"), indent=1)


if __name__ == "__main__":
    main()
