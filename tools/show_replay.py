#!/usr/bin/env python3
import json, sys
d = json.load(open(sys.argv[1]))
print("kind:", d.get("kind"), "| clause:", d.get("clause"))
print("detail:", d.get("detail"))
print("first_difference:", d.get("first_difference"))
s = d.get("scenario")
if s:
    print("\n".join(s["header"]))
    n = int(sys.argv[2]) if len(sys.argv) > 2 else 200
    print("\n".join(s["ops"][:n]))
