#!/usr/bin/env python3
"""Regenerates /verif/MANIFEST.json from the table below (kept in one place so it stays valid)."""
import json
import os

VERIF = os.path.dirname(os.path.dirname(os.path.abspath(__file__)))

TB = ("Trusted: Lean 4.33 kernel (leanchecker re-check in the thorough tier); axioms propext / Classical.choice / "
      "Quot.sound only, audited per theorem with #print axioms on every run, no sorry/native_decide/bv_decide (grepped); "
      "the hand-written model is tied to /repo by the differential correspondence harness (/verif/harness, stdlib "
      "Python, in-process on the working tree of $VERIF_REPO) whose generators, canonicalisation and oracles are "
      "trusted; where the level text names a TRANSLATOR tie also harness/py2lean.py and the Python primitives of "
      "lean/PyTreesGen/Prelude.lean; CPython 3.12. ")

BT = ("Modelled, not verified: generator laziness (a visitor/handler mutating the tree between yields), raising user "
      "callbacks, float clock (integer fake clock installed by the harness), threads of setup(timeout). ")
BBN = ("Modelled, not verified: Python object aliasing of stored values (fresh objects only), key names that shadow Client "
       "attributes, set iteration order (unobservable unless batch unregistration raises; such scenarios use single "
       "unregister_key calls), use of a client after unregister(). ")
P = "Lean 4 proof over the executable model + differential correspondence of the model with the working tree + Python oracle"

CLAIMED = {
    "C01": ("theorems over all trees x all histories (ticks with arbitrary outcomes/guards/clock, root interrupts, blackboard "
            "pokes, any length): every leaf log in every reachable state is accepted by the lifecycle automaton and is "
            "RUNNING exactly when inside a round (C01_protocol); clause lemmas on the automaton; contiguity of one leaf "
            "tick; exactly one terminate(INVALID) on interruption; a leaf that was RUNNING and is ticked gets exactly one "
            "update() and nothing else unless it completes (C01_running_update_alone, for every reachable state)", P, BT),
    "C02": ("theorems: in every reachable state a non-RUNNING node has no RUNNING descendant / every RUNNING node has a "
            "RUNNING parent; stop(INVALID) leaves the whole subtree INVALID and appends exactly one terminate(INVALID) to "
            "every non-INVALID leaf, for the root and for every subtree of every reachable state", P,
            BT + "Histories whose Parallel policy is invalid raise and end (C05 covers the rejection)."),
    "C03": ("theorems about tickF on an arbitrary sequence node (any children, any child tick): empty sequence, loop halts at "
            "first non-SUCCESS / completes, contiguous order, entry reset to INVALID, memory resume, full tick shape with "
            "status, children and trace, success-iff, tail interrupted without memory, memory-skipped prefix untouched; "
            "HISTORY level (Lemmas/Prefix.lean, C03b): in every state reachable by ticks / interrupts / pokes every RUNNING "
            "sequence has only SUCCESS children before and only INVALID children after its remembered child "
            "(C03_reachable_prefix), and one more tick of a RUNNING memory sequence enters none of the skipped children "
            "nor anything below them and leaves them literally unchanged (C03_memory_skipped_not_reticked)", P, BT),
    "C04": ("theorems: empty selector, loop selects first RUNNING/SUCCESS, order, entry cases, tick shape, failure-iff, "
            "one-running for every selector of every reachable state (full strength), interrupt-on-change PARTIAL (K1: "
            "fresh re-entry selecting the first child) with machine-checked counterexample C04_stale_counterexample; "
            "HISTORY level (C04b): in every reachable state the children before a RUNNING selector's remembered child are "
            "FAILURE (no memory) / FAILURE or INVALID (memory) and no child after it contains a RUNNING node "
            "(C04_reachable_prefix); a tick of a RUNNING memory selector enters none of the skipped higher priorities and "
            "leaves them INVALID (C04_memory_skipped_not_reticked)", P,
            BT + "Known finding K1 (stale SUCCESS/FAILURE, never RUNNING, below the first child on fresh re-entry)."),
    "C05": ("theorems: policy validation at tick and setup, sweep relation (every child once in order, synchronised "
            "SUCCESSes skipped untouched), result table for the three policies, tick shape, clean-up on completion, entry "
            "reset, completed parallels have no RUNNING node in every reachable state; result PARTIAL for the empty "
            "parallel (K2) with counterexample", P, BT + "Known finding K2 (empty SuccessOnOne parallel succeeds)."),
    "C06": ("theorems: dictionary laws of the storage association list; per-operation refinement (setattr / getattr / get "
            "incl. nested paths / exists / set with overwrite on-off, plain and nested to any depth / unset / statics) of "
            "the storage to put/del/get on the resolved location; read-your-writes across two clients naming one location "
            "differently; namespaced dotted access (client.a.b.key) = get/set of the absolute name, namespace cache = closure "
            "of the registered keys (C06b); HISTORY level (C06c): every operation changes the storage only at its resolved "
            "target locations (C06_frame, all 19 entry points), so after a write and ANY history of operations not "
            "targeting that location every reader resolving to it gets exactly that value (C06_history_read_your_writes), "
            "after unset KeyError / not-exists (C06_history_unset_then_read)", P, BBN + "Known finding K5 shows through clear-on-unregister (value of a still used location)."),
    "C07": ("theorems for every client and state: a denied attribute write/read, get, exists, set (any nesting, any "
            "overwrite flag) returns AttributeError and leaves storage/metadata/clients/registry unchanged; reads never "
            "change the store; storage changes only with write access; unset through an unregistered key raises and "
            "changes nothing; unset clause PARTIAL (K6) with machine-checked counterexample", P,
            BBN + "Known finding K6: unset needs no write access (a pinned test relies on it, so it is not repaired)."),
    "C08": ("theorems: a rejected/invalid registration returns the state unchanged (full frame); WRITE/EXCLUSIVE "
            "registrations conflicting with the metadata are rejected whatever name/remap spells the location; lock "
            "invariant through the Mirror invariant of C14 under the explicit K4/K5-excluding hypotheses; release on "
            "unregister", P, BBN + "Known findings K4 (remap change) and K5 (self alias) excluded by hypothesis, with "
            "counterexamples in C14."),
    "C09": ("theorems: every child-ticking decorator ticks its child exactly once before deciding (tick shape with trace), "
            "the documented status table for all stateless decorators / Count / StatusToBlackboard, publication on the "
            "blackboard incl. nested names, Count counters per tick and on interrupt, no RUNNING node below a decorator "
            "that finished + TRANSLATOR tie: the update() of the 7 status-map decorators, PassThrough, Condition, StatusToBlackboard and Count.update/terminate/setup are re-translated from the working tree to Lean on every run (harness/py2lean.py -> lean/PyTreesGen/C09.lean) and proved equal to the model's definitions for all arguments (C09_gen_* in Props/C09g.lean)", P, BT),
    "C10": ("theorems: Retry/Repeat update, reset on entry and round lemmas (j-th failure/success), Repeat -1 never "
            "succeeds, Condition, Timeout init/update/cancel through the tick, EternalGuard false/true with exact trace, "
            "OneShot latched tick, latch set exactly by a covered completion, never cleared, unaffected by interruption, "
            "kept over every history + TRANSLATOR tie: Retry/Repeat/Timeout update() and initialise(), EternalGuard.update, OneShot.update/terminate (the latch) and the members of common.OneShotPolicy are re-translated from the working tree to Lean on every run (harness/py2lean.py -> lean/PyTreesGen/C10.lean) and proved equal to the model's definitions for all arguments (C10_gen_* in Props/C10g.lean)", P, BT + "Time is an integer; float rounding of monotonic()+duration is outside the model."),
    "C11": ("theorems over a pointer heap: which calls are rejected, rejected calls leave the heap unchanged, the "
            "consistency invariant (child lists / parent links agree, no duplicates, one parent, remembered child is a "
            "child) is preserved by add / insert / remove / replace / remove-all / decorator construction, removed "
            "children are orphans, a removed RUNNING behaviour is INVALID", P,
            "Children are made RUNNING / current by assignment instead of ticking in this family (same edit paths). "
            "Acyclicity is not part of the invariant (the generator never builds cycles)."),
    "C12": ("theorems: phase order of the call log and count+1 (C12_order), traversal contract on the tick trace (first "
            "event enter, last event the root's yield, entered = yielded as multisets), snapshot record = id->status map of "
            "the yields, changed <-> record differs from the previous one, iterate lists every node once children first, "
            "setup keeps structure and rejects invalid policies", P,
            BT + "setup with a finite timeout (threads, signals) is not modelled; blackboard client ids of the snapshot "
            "visitor are compared only through the key sets."),
    "C13": ("theorems: root refused, unknown id -> False, decorator child refused, insert under non-composite TypeError, "
            "effect of remove at the parent (forgets the remembered child, interrupts a RUNNING child), structure after "
            "prune/insert, edits preserve the state invariant, and an edited tree never raises an internal error nor "
            "runs out of fuel (C13_tickable via tick_no_internal)", P, BT),
    "C14": ("theorems: Mirror invariant (metadata sets = live registrations) preserved by register / unregister_key under "
            "the K4/K5-excluding hypotheses, last-user rule for keys and values, registry, client and literal-regex "
            "filters, required-key verification, counterexamples for K4 and K5", P,
            BBN + "Regex filter proved for literal patterns (Python's re is trusted). Known findings K4, K5."),
    "C15": ("theorems over all List Char: absolute_name idempotent, identity on absolute keys, placement inside the "
            "namespace with or without trailing separator, relative_name inverse / KeyError outside, same-location iff "
            "same normalised namespace and key, client namespace normalisation, namespace closure = proper prefixes; + "
            "EXHAUSTIVE correspondence over {/,a,b} namespaces <= 4 x keys <= 5 + TRANSLATOR tie: Blackboard.absolute_name and relative_name are re-translated from the working tree to Lean on every run (harness/py2lean.py -> lean/PyTreesGen/C15.lean) and proved equal to the model's definitions for all arguments (C15_gen_* in Props/C15g.lean)", P, "Strings are List Char; CPython str "
            "methods (startswith/endswith/strip/rsplit) are trusted to be what PyTreesGen/Prelude.lean and the model say, "
            "checked exhaustively on short strings."),
    "C16": ("theorems: push bounded and most-recent, nothing recorded while disabled, the bound holds in every reachable "
            "state (C16_bounded over all operation histories), exactly one record with the documented type per store "
            "access for every outcome of setattr/getattr/unset/set", P, BBN + "Objects inside records are compared opaquely."),
    "C17": ("theorems on every stock leaf update for every blackboard content (exists/wait, value/wait-value with the "
            "operator table, multi-value check with evalChecks/publish, set/unset, BlackboardToStatus round trip) and round "
            "lemmas for TickCounter, StatusQueue (replay / eventually / cycle), SuccessEveryN (n | k), Timer; initialise "
            "runs exactly when the leaf was not RUNNING + TRANSLATOR tie: SuccessEveryN.update, TickCounter.update/initialise, Timer.update/initialise and the name -> (key, attribute path) helpers Blackboard.key / key_with_attributes are re-translated from the working tree to Lean on every run (harness/py2lean.py -> lean/PyTreesGen/C17.lean) and proved equal to the model's definitions for all arguments (C17_gen_* in Props/C17g.lean)", P, BT + "Integer clock."),
    "C18": ("theorems: XOR fold = parity (two options exact, even number fails, three-true counterexample K3), either_or / "
            "pick-up / oneshot shapes, flag publication and guards, memory keeps the choice, one-shot latch over every "
            "history; pick_up_where_you_left_off as a WHOLE, any number of tasks, any task subtrees that do not touch the "
            "blackboard, every history of ticks / interrupts / pokes of other variables (C18b: C18_pickup_history - a task "
            "whose flag is set is not entered, tasks are entered in order with all earlier flags set, flags are set only by a "
            "task's SUCCESS, never cleared before the root's SUCCESS, all cleared and all slots SUCCESS on it; "
            "C18_pickup_isPickUp: the constructor builds such an instance for every task list); either_or as a WHOLE, any "
            "number of options, over every history incl. pokes of the condition variables (C18c: fresh tick = parity of "
            "the true conditions, exactly-one -> exactly that subtree with its status mirrored, none/two -> FAILURE and "
            "no subtree, missing variable -> FAILURE; RUNNING tick never re-evaluates the conditions, leaves the "
            "blackboard alone and re-ticks only the chosen subtree unless another flag is set (K3 only); "
            "C18_eo_history(_exclusive), C18_eo_isEitherOr); C18d: renumbering yields consecutive, hence pairwise distinct "
            "ids for every tree, so both history theorems hold for EVERY idiom the constructors build with no hypothesis "
            "about ids or shape left (C18_pickup_constructor_history, C18_eo_constructor_history(_exclusive/_two)). "
            "PARTIAL only in what K3 refutes (several true conditions)", P,
            BT + "Known finding K3 (either_or with an odd number >= 3 of true conditions)."),
    "C19": ("theorems: for every node of every reachable state tip = None iff status INVALID, otherwise the tip is a "
            "non-INVALID node of that subtree; in sequence/selector trees over leaves the tip after a tick is the last "
            "childless behaviour yielded by that tick, for every reachable state (C19_last_leaf_reachable); the clause is "
            "refuted for states only subtree surgery can produce (C19_last_leaf_counterexample), which are outside C19's "
            "quantifier + TRANSLATOR tie: Behaviour.tip, Composite.tip, Decorator.tip and BehaviourTree.tip are "
            "re-translated from the working tree to Lean on every run (harness/py2lean.py -> lean/PyTreesGen/C19.lean); "
            "the model's tip satisfies the generated equations at every node and is the only function that does "
            "(C19_gen_* in Props/C19g.lean)", P, BT),
    "C20": ("theorems: one text line per behaviour in pre-order with indentation 4*(indent+depth) and newlines replaced, "
            "the *-suffix loop terminates with a fresh name, dot node names pairwise distinct for any names, #edges = "
            "#nodes-1, #nodes = #displayed behaviours (hidden subtrees omitted whole); the read-only clause holds "
            "trivially in a functional model and is carried by the correspondence only (before/after snapshots of every "
            "renderer in every runtime state): PARTIAL", P, "pydot is used as a container only."),
}

PENDING = {}  # pid -> reason (filled below for everything not claimed)


def main():
    props = [json.loads(l) for l in open(os.path.join(VERIF, "properties.jsonl"))]
    checks = []
    na = []
    for p in props:
        pid = p["id"]
        if pid in CLAIMED:
            text, tech, note = CLAIMED[pid]
            checks.append({
                "property_id": pid,
                "quick_cmd": "./check %s --tier quick" % pid,
                "thorough_cmd": "./check %s --tier thorough" % pid,
                "evidence_file": "evidence/%s.json" % pid,
                "replay_cmd_template": "./check %s --replay {path}" % pid,
                "engine": "lean4-model+correspondence",
                "level_claimed": {"category": "proof", "text": text, "design_ref": "DESIGN.md §6 " + pid},
                "level_note": TB + note,
                "technique": tech,
            })
        else:
            na.append({"property_id": pid, "reason": PENDING.get(
                pid, "no check registered yet in this build round (model/theorems under construction); not claimed")})
    m = {
        "version": 1,
        "setup_cmd": "cd lean && lake build PyTreesModel PyTreesGen PyTreesProofs driver",
        "hooks": {
            "guard": "PY_TREES_VERIF",
            "enable": "none needed: the harness observes the real classes in-process (instance-level tick wrappers, probe "
                      "leaves, a fake time module object assigned to py_trees.decorators.time / py_trees.timers.time); "
                      "no source hooks were added to /repo",
            "baseline_off_cmd": "cd /repo && /venv/bin/python -m pytest -ra -q -p no:cacheprovider --timeout=900 "
                                "--continue-on-collection-errors",
            "source_commits": [],
            "add_only": True,
        },
        "engines": [{
            "name": "lean4-model+correspondence", "path": "lean/ , harness/",
            "serves_properties": sorted(CLAIMED),
            "kind_free_text": "hand-written executable Lean 4 models with machine-checked theorems; a compiled line-protocol "
                              "driver runs the same definitions; a Python harness runs the real classes on the same "
                              "scenarios, compares per-property projections and runs Python oracles for failing-input "
                              "search"}],
        "checks": checks,
        "not_applicable": na,
        "notes": "Exit 2 = infrastructure failure (never a verdict). Known findings: known_findings.json. "
                 "Design: DESIGN.md (+ Amendments).",
    }
    json.dump(m, open(os.path.join(VERIF, "MANIFEST.json"), "w"), indent=1)
    print("MANIFEST.json: %d checks, %d not claimed" % (len(checks), len(na)))


if __name__ == "__main__":
    main()
