#!/usr/bin/env python3
"""Regenerates /verif/MANIFEST.json from the table below (kept in one place so it stays valid)."""
import json
import os

VERIF = os.path.dirname(os.path.dirname(os.path.abspath(__file__)))

TB = ("Trusted: Lean 4.33 kernel (leanchecker re-check in the thorough tier); axioms propext / Classical.choice / "
      "Quot.sound only, audited per theorem with #print axioms on every run, no sorry/native_decide/bv_decide (grepped); "
      "the hand-written model is tied to /repo by the differential correspondence harness (/verif/harness, stdlib "
      "Python, in-process on the working tree of $VERIF_REPO) whose generators, canonicalisation and oracles are "
      "trusted; CPython 3.12. ")

CLAIMED = {
    "C01": ("theorems over all trees x all histories of the interpreter model (lifecycle automaton accepted by every leaf "
            "log in every reachable state; clause lemmas; contiguity; single terminate(INVALID) on interruption) + "
            "correspondence of leaf callbacks and statuses on seeded random trees/schedules + Python oracle",
            "Lean 4 proof (induction on tick fuel + structural induction) + model/implementation correspondence",
            "Modelled, not verified: generator laziness (visitors mutating the tree mid-tick), raising callbacks, "
            "float clock. Probe/stock leaves observed through instance-level wrappers."),
    "C02": ("theorems: Closed invariant (a non-RUNNING node has no RUNNING descendant) for every reachable state; "
            "stop(INVALID) makes every node INVALID and appends exactly one terminate(INVALID) to every non-INVALID "
            "leaf; + correspondence of all statuses and INVALID notifications + oracle",
            "Lean 4 proof (state invariant by induction) + correspondence",
            "As C01. Histories whose Parallel policy is invalid raise and end (covered by C05)."),
    "C19": ("theorems: for every node of every reachable state tip = None iff status INVALID, otherwise the tip is a "
            "non-INVALID node of that subtree (CurOK + InvDown invariants); + correspondence of tip() of every node "
            "after every op + oracle incl. the last-childless-ticked clause on sequence/selector trees",
            "Lean 4 proof (state invariant) + correspondence",
            "As C01. The 'last childless behaviour ticked' clause is carried by the oracle/correspondence only "
            "(partial): no theorem yet."),
}

PENDING = {}  # pid -> reason (filled below for everything not claimed)


def main():
    props = [json.loads(l) for l in open(os.path.join(VERIF, "properties.jsonl"))]
    checks = []
    na = []
    for p in props:
        pid = p["id"]
        if pid in CLAIMED:
            text, tech, note = CLAIMED[pid]
            checks.append({
                "property_id": pid,
                "quick_cmd": "./check %s --tier quick" % pid,
                "thorough_cmd": "./check %s --tier thorough" % pid,
                "evidence_file": "evidence/%s.json" % pid,
                "replay_cmd_template": "./check %s --replay {path}" % pid,
                "engine": "lean4-model+correspondence",
                "level_claimed": {"category": "proof", "text": text, "design_ref": "DESIGN.md §6 " + pid},
                "level_note": TB + note,
                "technique": tech,
            })
        else:
            na.append({"property_id": pid, "reason": PENDING.get(
                pid, "no check registered yet in this build round (model/theorems under construction); not claimed")})
    m = {
        "version": 1,
        "setup_cmd": "cd lean && lake build PyTreesModel PyTreesProofs driver",
        "hooks": {
            "guard": "PY_TREES_VERIF",
            "enable": "none needed: the harness observes the real classes in-process (instance-level tick wrappers, probe "
                      "leaves, a fake time module object assigned to py_trees.decorators.time / py_trees.timers.time); "
                      "no source hooks were added to /repo",
            "baseline_off_cmd": "cd /repo && /venv/bin/python -m pytest -ra -q -p no:cacheprovider --timeout=900 "
                                "--continue-on-collection-errors",
            "source_commits": [],
            "add_only": True,
        },
        "engines": [{
            "name": "lean4-model+correspondence", "path": "lean/ , harness/",
            "serves_properties": sorted(CLAIMED),
            "kind_free_text": "hand-written executable Lean 4 models with machine-checked theorems; a compiled line-protocol "
                              "driver runs the same definitions; a Python harness runs the real classes on the same "
                              "scenarios, compares per-property projections and runs Python oracles for failing-input "
                              "search"}],
        "checks": checks,
        "not_applicable": na,
        "notes": "Exit 2 = infrastructure failure (never a verdict). Known findings: known_findings.json. "
                 "Design: DESIGN.md (+ Amendments).",
    }
    json.dump(m, open(os.path.join(VERIF, "MANIFEST.json"), "w"), indent=1)
    print("MANIFEST.json: %d checks, %d not claimed" % (len(checks), len(na)))


if __name__ == "__main__":
    main()
