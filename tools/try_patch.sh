#!/bin/sh
# tools/try_patch.sh <patch.diff> <Cxx> [<Cyy> ...]  -- apply a seeded change to /repo, run the quick checks, undo it
P="$1"; shift
git -C /repo apply "$P" || { echo "patch does not apply"; exit 2; }
for c in "$@"; do
  /verif/check "$c" --no-lean 2>&1 | grep -E "VIOLATION|seed=|INFRA" | sed "s/^/  [$c] /"
done
git -C /repo checkout -- .
