#!/usr/bin/env python3
"""Safety net (installed as .git/hooks/pre-commit): the staged lean/PyTreesGen/<Cxx>.lean and harness/gen_pins.json must be
exactly what harness/py2lean.py produces from /repo's HEAD (not from a working tree that happens to carry a patch)."""
import json
import os
import subprocess
import sys
import tempfile

VERIF = os.path.dirname(os.path.dirname(os.path.abspath(__file__)))
sys.path.insert(0, os.path.join(VERIF, "harness"))
import py2lean  # noqa

with tempfile.TemporaryDirectory() as tmp:
    p = subprocess.run("git -C /repo archive HEAD py_trees | tar -x -C %s" % tmp, shell=True)
    if p.returncode != 0:
        print("check_gen_committed: cannot export /repo HEAD; skipping")
        sys.exit(0)
    bad = []
    for pid in sorted(py2lean.TARGETS):
        text, problems = py2lean.generate(tmp, pid)
        staged = subprocess.run(["git", "-C", VERIF, "show", ":lean/PyTreesGen/%s.lean" % pid],
                                stdout=subprocess.PIPE, stderr=subprocess.DEVNULL).stdout.decode()
        if staged != text or problems:
            bad.append(pid)
    if bad:
        print("check_gen_committed: staged PyTreesGen files differ from the translation of /repo HEAD for %s\n"
              "  run: VERIF_REPO=<clean tree> python3 tools/regen.py && git add lean/PyTreesGen" % bad)
        sys.exit(1)
print("check_gen_committed: ok")
