#!/usr/bin/env python3
"""Rewrite lean/PyTreesGen/*.lean from a tree (default /repo; VERIF_REPO overrides) under the build lock.
Run before committing: the committed generated files must be the translation of /repo's HEAD."""
import fcntl
import os
import sys

VERIF = os.path.dirname(os.path.dirname(os.path.abspath(__file__)))
sys.path.insert(0, os.path.join(VERIF, "harness"))
import py2lean  # noqa

repo = os.environ.get("VERIF_REPO", "/repo")
lock = open(os.path.join(VERIF, "lean", ".build.lock"), "w")
fcntl.flock(lock, fcntl.LOCK_EX)
for pid in sorted(py2lean.TARGETS):
    print(pid, py2lean.regenerate(repo, os.path.join(VERIF, "lean"), pid))
fcntl.flock(lock, fcntl.LOCK_UN)
