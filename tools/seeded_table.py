#!/usr/bin/env python3
"""Prints the markdown table of seeded changes and the checks that catch them (from seeded/*/meta.json)."""
import glob
import json
import os

VERIF = os.path.dirname(os.path.dirname(os.path.abspath(__file__)))
rows = []
for f in sorted(glob.glob(os.path.join(VERIF, "seeded", "*", "meta.json"))):
    m = json.load(open(f))
    notes = m.get("needs_to_manifest", "")
    first = next((l.strip("# ").strip() for l in notes.split("\n") if l.strip() and not l.startswith("#")), "")
    det = m.get("detected_by", {})
    own = det.get(m["breaks_property"], "MISSED")
    others = ", ".join(sorted(k for k in det if k != m["breaks_property"]))
    rows.append("| %s | %s | %s | %s | %s |" % (m["id"], "yes" if m.get("confirmed") else "NO", own, others or "-",
                                              first[:110].replace("|", "/")))
print("| seeded change | confirmed | own property's check | other checks that alarm | what it is |")
print("|---|---|---|---|---|")
print("\n".join(rows))
